"""pygram - typed Python expression / statement-block grammar (shared by C19 and C04).

Hypothesis strategies that build CPython `ast` nodes directly and print them with `ast.unparse`
(CPython is the trusted printer), together with a typed environment that supplies values for the free
names so that most generated code evaluates without raising.

Public surface
    ALL_FLAGS                    every optional construct the generators can produce
    expressions(flags, ...)      strategy -> ExprCase(src, envspec, ty)
    blocks(flags, ...)           strategy -> BlockCase(src, envspec, outs, feats)
    build_env(envspec)           -> dict of fresh values + helper functions (plain JSON spec in, objects out)
    canon(value)                 -> comparable, address-free form of a computed value
    features(tree)               -> set of construct names present in an ast (used for labels / triage)
    CUR                          registry through which module-level template code can fetch the environment

Nothing here imports mako.  hypothesis is imported lazily.
"""
import ast
import types

# --------------------------------------------------------------------------------------------
# runtime helpers (closed set of functions / classes visible to generated code)
# --------------------------------------------------------------------------------------------


class Echo:
    """Subscriptable object echoing its key (lets tuple slices such as g[1:2, 3] evaluate)."""

    def __getitem__(self, key):
        return ("item", key)

    def __eq__(self, other):
        return isinstance(other, Echo)

    def __hash__(self):
        return 17

    def __repr__(self):
        return "Echo()"


class Mat:
    """Object supporting the @ operator."""

    def __init__(self, v):
        self.v = v

    def __matmul__(self, other):
        return Mat(("@", self.v, other.v if isinstance(other, Mat) else other))

    def __rmatmul__(self, other):
        return Mat(("@", other, self.v))

    def __eq__(self, other):
        return isinstance(other, Mat) and self.v == other.v

    def __hash__(self):
        return 19

    def __repr__(self):
        return "Mat(%r)" % (self.v,)


class Cm:
    """Context manager yielding its value (statement blocks: with Cm(v) as name)."""

    def __init__(self, v):
        self.v = v

    def __enter__(self):
        return self.v

    def __exit__(self, *a):
        return False


def fid(v):
    return v


def fadd(a, b=1):
    return a + b


def fcall(fn, *a, **k):
    return fn(*a, **k)


def fpick(*a, **k):
    return (a, sorted(k.items()))


HELPERS = {"fid": fid, "fadd": fadd, "fcall": fcall, "fpick": fpick, "Cm": Cm}

# registry read by module-level template code:  <%! from vf.gen.pygram import CUR as e_ ... %>
CUR = {}

# names that may never be used as variables in generated code (mako reserved / harness names)
FORBIDDEN = {
    "context", "loop", "UNDEFINED", "STOP_RENDERING", "self", "local", "next", "parent", "capture", "caller",
    "pageargs", "rec_", "e_", "fecho",
}
ESCAPE_NAMES = ["x", "n", "h", "u"]  # keys of mako.filters.DEFAULT_ESCAPES usable as variable names

INT_VARS = ["ia", "ib", "ic"]
STR_VARS = ["sa", "sb"]
LIST_VARS = ["la", "lb"]
DICT_VARS = ["da"]
TUPLE_VARS = ["ta"]
SET_VARS = ["za"]
BOOL_VARS = ["ba"]

STR_ATOMS = ["a", "b", "Z", " ", "'", '"', "#", "\\", "\n", "\t", "{", "}", "é", "0", "''", '""', "\\n", ":", ","]


def build_env(spec):
    """spec: {name: json value | "@Echo" | ["@Mat", v] | ["@tuple", [...]] | ["@set", [...]]} -> fresh objects."""
    env = dict(HELPERS)
    for k, v in spec.items():
        env[k] = _revive(v)
    return env


def _revive(v):
    if v == "@Echo":
        return Echo()
    if isinstance(v, list) and v and v[0] == "@Mat":
        return Mat(v[1])
    if isinstance(v, list) and v and v[0] == "@tuple":
        return tuple(_revive(x) for x in v[1])
    if isinstance(v, list) and v and v[0] == "@set":
        return set(_revive(x) for x in v[1])
    if isinstance(v, list):
        return [_revive(x) for x in v]
    if isinstance(v, dict):
        return {k: _revive(x) for k, x in v.items()}
    return v


def canon(v, depth=0):
    """Address-free comparable form.  Generators/iterators are consumed."""
    if depth > 40:
        return ("deep",)
    t = type(v)
    if v is None or t in (bool, int, str, bytes, complex):
        return (t.__name__, v)
    if t is float:
        return ("float", repr(v))
    if t in (list, tuple):
        return (t.__name__, [canon(x, depth + 1) for x in v])
    if t in (set, frozenset):
        return (t.__name__, sorted((canon(x, depth + 1) for x in v), key=repr))
    if t is dict:
        return ("dict", [(canon(k, depth + 1), canon(x, depth + 1)) for k, x in v.items()])
    if t is slice:
        return ("slice", canon(v.start, depth + 1), canon(v.stop, depth + 1), canon(v.step, depth + 1))
    if t is range:
        return ("range", v.start, v.stop, v.step)
    if t is Mat:
        return ("Mat", canon(v.v, depth + 1))
    if t is Echo:
        return ("Echo",)
    if t is Cm:
        return ("Cm", canon(v.v, depth + 1))
    if isinstance(v, types.GeneratorType):
        return ("generator", [canon(x, depth + 1) for x in v])
    if isinstance(v, (types.FunctionType, types.BuiltinFunctionType, types.MethodType)):
        return ("function",)
    if isinstance(v, types.ModuleType):
        return ("module", v.__name__)
    if isinstance(v, BaseException):
        return ("exception", type(v).__name__)
    if isinstance(v, type):
        return ("type", v.__name__)
    if hasattr(v, "__next__"):
        return ("iterator", t.__name__, [canon(x, depth + 1) for x in v])
    return ("object", t.__name__)


# --------------------------------------------------------------------------------------------
# optional constructs
# --------------------------------------------------------------------------------------------
EXPR_FLAGS = [
    "pow",              # a ** b
    "matmul",           # a @ b
    "ifexp_tight",      # IfExp where the printer must parenthesise it (operand, attribute/subscript/call value, ...)
    "lambda_tight",     # Lambda in such a position
    "lambda_kwonly",    # keyword-only lambda parameters (incl. bare *)
    "lambda_posonly",   # positional-only lambda parameters
    "fstring",          # f-strings
    "walrus",           # (name := value)
    "dict_unpack",      # {**d}
    "call_dstar",       # f(**k)
    "attr_on_int",      # (1).real
    "tuple_slice",      # a[1:2, 3]
    "escape_names",     # variables named like default escapes (x, n, h, u)
]
STMT_FLAGS = [
    "fn_param_kinds",   # bodies read *args / keyword-only / **kwargs / positional-only parameters
    "fn_default_free",  # parameter defaults that read free (context) names
    "fn_comp_free",     # comprehension inside a function whose element/condition reads a free name
    "fn_late_local",    # inner function reads an enclosing-function local bound later in the text
    "comp_var_reuse",   # in a function: a comprehension variable whose name is also read as a free name there
    "keyerror_name",    # the block mentions the builtin KeyError (which mako's strict-undefined lookups also use)
]
ALL_FLAGS = frozenset(EXPR_FLAGS + STMT_FLAGS)


# --------------------------------------------------------------------------------------------
# feature detection on a parsed tree (labels, non-trivial rule, triage of unknown failures)
# --------------------------------------------------------------------------------------------
_TIGHT_FIELDS = {
    ast.BinOp: ("left", "right"), ast.UnaryOp: ("operand",), ast.BoolOp: ("values",), ast.Compare: ("left", "comparators"),
    ast.Attribute: ("value",), ast.Subscript: ("value",), ast.Call: ("func",), ast.IfExp: ("test", "body"),
    ast.comprehension: ("iter", "ifs"), ast.Starred: (), ast.FormattedValue: ("value",),
}


def _children(node, fields):
    for f in fields:
        v = getattr(node, f, None)
        if isinstance(v, list):
            yield from v
        elif v is not None:
            yield v


def features(tree):
    """Set of construct names present in `tree` (names of EXPR_FLAGS plus neutral kinds)."""
    out = set()
    for node in ast.walk(tree):
        t = type(node)
        if t is ast.BinOp:
            if isinstance(node.op, ast.Pow):
                out.add("pow")
                if isinstance(node.left, ast.UnaryOp) or isinstance(node.right, ast.UnaryOp):
                    out.add("unary_under_pow")
            if isinstance(node.op, ast.MatMult):
                out.add("matmul")
            for c in (node.left, node.right):
                if isinstance(c, ast.BinOp) and type(c.op) is not type(node.op):
                    out.add("mixed_binop")
        if t in _TIGHT_FIELDS:
            for c in _children(node, _TIGHT_FIELDS[t]):
                if isinstance(c, ast.IfExp):
                    out.add("ifexp_tight")
                if isinstance(c, ast.Lambda):
                    out.add("lambda_tight")
                if isinstance(c, (ast.Compare, ast.BoolOp)) and t in (ast.BinOp, ast.UnaryOp, ast.Compare, ast.Attribute, ast.Subscript) \
                        and not (t is ast.UnaryOp and isinstance(node.op, ast.Not)):
                    out.add("truth_value_operand")
        if t is ast.UnaryOp and isinstance(node.operand, ast.BinOp) and isinstance(node.operand.op, ast.Pow):
            out.add("unary_under_pow")
        if t is ast.Lambda or t is ast.FunctionDef:
            a = node.args
            if a.kwonlyargs:
                out.add("lambda_kwonly" if t is ast.Lambda else "def_kwonly")
            if a.posonlyargs:
                out.add("lambda_posonly" if t is ast.Lambda else "def_posonly")
            if a.vararg:
                out.add("lambda_vararg" if t is ast.Lambda else "def_vararg")
            if a.kwarg:
                out.add("lambda_kwarg" if t is ast.Lambda else "def_kwarg")
            if a.defaults or any(d is not None for d in a.kw_defaults):
                out.add("param_default")
        if t is ast.JoinedStr:
            out.add("fstring")
        if t is ast.NamedExpr:
            out.add("walrus")
        if t is ast.Dict and any(k is None for k in node.keys):
            out.add("dict_unpack")
        if t is ast.Call:
            if any(k.arg is None for k in node.keywords):
                out.add("call_dstar")
            if any(isinstance(a, ast.Starred) for a in node.args):
                out.add("call_star")
            if node.keywords:
                out.add("call_keyword")
        if t in (ast.List, ast.Tuple, ast.Set) and any(isinstance(e, ast.Starred) for e in node.elts):
            out.add("display_star")
            if any(isinstance(e, ast.Starred) and isinstance(e.value, ast.IfExp) for e in node.elts):
                out.add("ifexp_tight")
        if t is ast.Attribute and isinstance(node.value, ast.Constant) and type(node.value.value) is int:
            out.add("attr_on_int")
        if t is ast.Subscript:
            sl = node.slice
            if isinstance(sl, ast.Tuple) and any(isinstance(e, ast.Slice) for e in sl.elts):
                out.add("tuple_slice")
            if isinstance(sl, ast.Slice) and sl.step is not None:
                out.add("slice_step")
        if t is ast.Compare and len(node.ops) > 1:
            out.add("compare_chain")
        if t is ast.BoolOp and any(isinstance(v, ast.BoolOp) for v in node.values):
            out.add("mixed_boolop")
        if t in (ast.ListComp, ast.SetComp, ast.DictComp, ast.GeneratorExp):
            if len(node.generators) > 1 or any(g.ifs for g in node.generators):
                out.add("comp_multi")
        if t is ast.Name and node.id in ESCAPE_NAMES:
            out.add("escape_names")
    return out


PRECEDENCE_FEATURES = {
    "pow", "unary_under_pow", "ifexp_tight", "lambda_tight", "compare_chain", "call_star", "call_dstar", "display_star",
    "fstring", "mixed_binop", "mixed_boolop", "lambda_kwonly", "lambda_posonly", "lambda_vararg", "lambda_kwarg",
    "slice_step", "tuple_slice", "comp_multi", "dict_unpack", "walrus", "attr_on_int", "matmul", "truth_value_operand",
}


def node_kinds(tree):
    return {type(n).__name__ for n in ast.walk(tree)
            if isinstance(n, (ast.expr, ast.stmt, ast.comprehension, ast.excepthandler))}


class ExprCase:
    def __init__(self, src, envspec, ty):
        self.src = src
        self.envspec = envspec
        self.ty = ty

    def __repr__(self):
        return "ExprCase(%r, %r)" % (self.src, self.envspec)


class BlockCase:
    def __init__(self, src, envspec, outs, feats):
        self.src = src
        self.envspec = envspec
        self.outs = outs
        self.feats = feats

    def __repr__(self):
        return "BlockCase(%r, %r, %r)" % (self.src, self.envspec, self.outs)




# --------------------------------------------------------------------------------------------
# expression generator
# --------------------------------------------------------------------------------------------
def _load(name):
    return ast.Name(id=name, ctx=ast.Load())


def _store(name):
    return ast.Name(id=name, ctx=ast.Store())


def _const(v):
    return ast.Constant(value=v)


def _call(func, args=(), keywords=()):
    if isinstance(func, str):
        func = _load(func)
    return ast.Call(func=func, args=list(args), keywords=list(keywords))


def _kw(name, value):
    return ast.keyword(arg=name, value=value)


def _attr(value, name):
    return ast.Attribute(value=value, attr=name, ctx=ast.Load())


def _sub(value, sl):
    return ast.Subscript(value=value, slice=sl, ctx=ast.Load())


def _arguments(posonly=(), args=(), vararg=None, kwonly=(), kw_defaults=(), kwarg=None, defaults=()):
    return ast.arguments(
        posonlyargs=[ast.arg(arg=a) for a in posonly], args=[ast.arg(arg=a) for a in args],
        vararg=ast.arg(arg=vararg) if vararg else None, kwonlyargs=[ast.arg(arg=a) for a in kwonly],
        kw_defaults=list(kw_defaults), kwarg=ast.arg(arg=kwarg) if kwarg else None, defaults=list(defaults))


class _NoFree(Exception):
    pass


class _Region:
    def __init__(self, g, counter, no_free=False):
        self.g, self.counter, self.no_free = g, counter, no_free

    def __enter__(self):
        setattr(self.g, self.counter, getattr(self.g, self.counter) + 1)
        self.keep = self.g.free_ok
        if self.no_free:
            self.g.free_ok = False

    def __exit__(self, *a):
        setattr(self.g, self.counter, getattr(self.g, self.counter) - 1)
        self.g.free_ok = self.keep


LEAF_PCT = [100, 35, 22, 15, 10, 6]
ARITH = [ast.Add, ast.Sub, ast.Mult, ast.FloorDiv, ast.Mod, ast.LShift, ast.RShift, ast.BitAnd, ast.BitOr, ast.BitXor]
TYPES = ["int", "str", "bool", "list", "tuple", "set", "dict", "none", "num"]


class ExprGen:
    """Typed, scope-aware random expression builder driven by a hypothesis `draw`."""

    def __init__(self, draw, flags, envtypes, prefix="p"):
        from hypothesis import strategies as st

        self.st = st
        self.draw = draw
        self.flags = flags
        self.env = envtypes  # {type: [names]} of free variables available
        self.used = set()    # free names actually referenced
        self.counter = 0
        self.prefix = prefix
        self.no_walrus = 0
        self.in_fn = 0
        self.free_ok = True   # may free (environment) names be read here?
        self.block_mode = False  # statement blocks: tame string constants, comprehension variables may reuse free names
        self.reused = []  # one entry per comprehension whose variable reuses a free name

    # -- drawing helpers ----------------------------------------------------------------
    def n(self, k):
        return self.draw(self.st.integers(0, k - 1))

    def chance(self, pct):
        # hypothesis favours small integers: make the favoured outcome "no"
        return self.n(100) >= 100 - pct

    def pick(self, seq):
        return seq[self.n(len(seq))]

    def on(self, flag):
        return flag in self.flags

    def fresh(self, stem=None):
        self.counter += 1
        return "%s%d" % (stem or self.prefix, self.counter)

    # -- names --------------------------------------------------------------------------
    def names(self, ty, sc):
        out = [k for k, t in sc.items() if t == ty]
        if self.free_ok:
            out += self.env.get(ty, [])
        return out

    def name(self, ty, sc):
        cands = self.names(ty, sc)
        if not cands:
            return None
        nm = self.pick(cands)
        if nm not in sc:
            self.used.add(nm)
        return _load(nm)

    def helper(self, nm):
        if not self.free_ok:
            raise _NoFree()
        self.used.add(nm)
        return _load(nm)

    # -- regions where free names may not be read ---------------------------------------
    def fn_body(self):
        return _Region(self, "in_fn")

    def comp_body(self):
        """element / condition of a comprehension: inside a function it reads no free name unless fn_comp_free is on"""
        return _Region(self, "no_walrus", no_free=self.in_fn > 0 and not self.on("fn_comp_free"))

    # -- entry --------------------------------------------------------------------------
    def gen(self, ty, d, sc, safe=True):
        if ty == "any":
            ty = self.pick(TYPES)
        try:
            return self._gen(ty, d, sc, safe)
        except _NoFree:
            if self.free_ok:
                raise
            return self.leaf(ty, sc)

    def _gen(self, ty, d, sc, safe):
        if d <= 0 or self.chance(LEAF_PCT[min(d, 5)]):
            return self.leaf(ty, sc)
        # conditional expression of any type
        if self.chance(9) and (safe or self.on("ifexp_tight")):
            return ast.IfExp(test=self.gen("bool", d - 1, sc, False), body=self.gen(ty, d - 1, sc, False),
                             orelse=self.gen(ty, d - 1, sc, True))
        # a call of a lambda producing this type
        if self.chance(8):
            return self.lambda_call(ty, d, sc, safe)
        if self.chance(3) and self.on("walrus") and not self.no_walrus:
            nm = self.fresh("w")
            return ast.NamedExpr(target=_store(nm), value=self.gen(ty, d - 1, sc, True))
        return getattr(self, "g_" + ty)(d, sc, safe)

    # -- leaves -------------------------------------------------------------------------
    def leaf(self, ty, sc):
        if ty in ("int", "num", "str", "bool", "list", "tuple", "set", "dict") and self.chance(60):
            nm = self.name("int" if ty == "num" else ty, sc)
            if nm is not None:
                return nm
        if ty == "int":
            return _const(self.pick([0, 1, 2, 3, 5, 7, 10, 255, 10 ** 12, 2 ** 64]))
        if ty == "num":
            return _const(self.pick([0.5, 3.0, 1e10, 1.5e-07, 2j, 4, 9]))
        if ty == "str":
            return _const(self.strconst())
        if ty == "bool":
            return _const(self.pick([True, False]))
        if ty == "none":
            return _const(None)
        if ty == "list":
            return ast.List(elts=[_const(self.n(10)) for _ in range(self.n(4))], ctx=ast.Load())
        if ty == "tuple":
            return ast.Tuple(elts=[_const(self.n(10)) for _ in range(self.n(4))], ctx=ast.Load())
        if ty == "set":
            return ast.Set(elts=[_const(self.n(10)) for _ in range(1 + self.n(3))])
        if ty == "dict":
            ks = self.pick([[], ["a"], ["a", "b"], ["b", "q"]])
            return ast.Dict(keys=[_const(k) for k in ks], values=[_const(self.n(10)) for _ in ks])
        if ty == "bytes":
            return _const(self.pick([b"", b"ab", b"\x00'"]))
        raise AssertionError(ty)

    def strconst(self):
        s = "".join(self.pick(STR_ATOMS) for _ in range(self.n(6)))
        if self.block_mode:
            # no run of quote characters (three in a row would look like a triple quote to line-based scanners: part 3)
            for q in ("'", '"'):
                while q + q in s:
                    s = s.replace(q + q, q + "-")
        return s

    # -- int ----------------------------------------------------------------------------
    def g_int(self, d, sc, safe):
        k = self.n(13)
        g = self.gen
        if k <= 2:
            op = self.pick(ARITH)
            left = g("int", d - 1, sc, False)
            if op in (ast.LShift, ast.RShift):
                right = _const(self.n(7))
            elif op in (ast.FloorDiv, ast.Mod) and self.chance(85):
                right = _const(1 + self.n(9))
            else:
                right = g("int", d - 1, sc, False)
            return ast.BinOp(left=left, op=op(), right=right)
        if k == 3:
            return ast.UnaryOp(op=self.pick([ast.USub, ast.UAdd, ast.Invert])(), operand=g("int", d - 1, sc, False))
        if k == 4:
            which = self.n(5)
            if which == 0:
                return _call("len", [g(self.pick(["list", "str", "dict", "set", "tuple"]), d - 1, sc)])
            if which == 1:
                return _call("abs", [g("int", d - 1, sc)])
            if which == 2:
                return _call(self.pick(["min", "max"]), [g("int", d - 1, sc), g("int", d - 1, sc)])
            if which == 3:
                return _call("sum", [g("list", d - 1, sc)])
            return _call("int", [g("bool", d - 1, sc)])
        if k == 5:
            which = self.n(4)
            if which == 0:
                return _call(self.helper("fid"), [g("int", d - 1, sc)])
            if which == 1:
                return _call(self.helper("fadd"), [g("int", d - 1, sc), g("int", d - 1, sc)])
            if which == 2:
                return _call(self.helper("fadd"), [g("int", d - 1, sc)], [_kw("b", g("int", d - 1, sc))])
            return _call(self.helper("fadd"), [], [_kw("b", g("int", d - 1, sc)), _kw("a", g("int", d - 1, sc))])
        if k == 6:
            which = self.n(3)
            if which == 0:
                return _sub(g("list", d - 1, sc, False), _const(self.pick([0, 1, 2, -1])))
            if which == 1:
                return _sub(g("dict", d - 1, sc, False), _const(self.pick(["a", "a", "b", "q"])))
            return _sub(g("list", d - 1, sc, False), g("int", d - 1, sc))
        if k == 7:
            which = self.n(5)
            if which == 0 and self.on("attr_on_int"):
                return _attr(_const(self.pick([1, 7, 10])), self.pick(["real", "imag", "numerator"]))
            if which <= 1:
                return _attr(self.int_value(d - 1, sc), self.pick(["real", "imag", "numerator"]))
            if which == 2:
                return _call(_attr(g("list", d - 1, sc, False), "count"), [g("int", d - 1, sc)])
            if which == 3:
                return _call(_attr(g("str", d - 1, sc, False), self.pick(["count", "find"])), [g("str", d - 1, sc)])
            return _call(_attr(self.int_value(d - 1, sc), "bit_length"), [])
        if k == 8:
            which = self.n(3)
            elt_ty = "int"
            gens, sc2 = self.comp_gens(d, sc)
            with self.comp_body():
                elt = g(elt_ty, d - 1, sc2)
            if which == 0:
                return _call("sum", [ast.GeneratorExp(elt=elt, generators=gens)])
            if which == 1:
                return _call("len", [ast.ListComp(elt=elt, generators=gens)])
            return _call("max", [ast.GeneratorExp(elt=elt, generators=gens)], [_kw("default", _const(0))])
        if k == 9 and self.on("pow"):
            left = g("int", d - 1, sc, False)
            if self.chance(40):
                left = ast.UnaryOp(op=ast.USub(), operand=left)
            node = ast.BinOp(left=left, op=ast.Pow(), right=_const(self.n(4)))
            if self.chance(30):
                node = ast.UnaryOp(op=ast.USub(), operand=node)
            return node
        if k == 10:
            return _call("ord", [_sub(_const("abc"), _const(self.n(3)))])
        if k == 11:
            # a truth value used as a number: comparison / boolean operation as operand of arithmetic, unary minus, attribute
            w = self.n(4)
            b = g("bool", d - 1, sc, False)
            if w == 0:
                return ast.BinOp(left=b, op=self.pick([ast.Add, ast.Mult, ast.Sub])(), right=g("int", d - 1, sc, False))
            if w == 1:
                return ast.BinOp(left=g("int", d - 1, sc, False), op=self.pick([ast.Add, ast.Mult, ast.BitAnd])(), right=b)
            if w == 2:
                return ast.UnaryOp(op=self.pick([ast.USub, ast.Invert])(), operand=b)
            return _attr(b, self.pick(["real", "numerator"]))
        return ast.BinOp(left=g("int", d - 1, sc, False), op=self.pick([ast.Add, ast.Sub, ast.Mult])(),
                         right=g("int", d - 1, sc, False))

    def int_value(self, d, sc):
        """int expression usable before '.attr' (an int literal there is the separate construct attr_on_int)"""
        v = self.gen("int", d, sc, False)
        if isinstance(v, ast.Constant) and not self.on("attr_on_int"):
            v = self.name("int", sc) or ast.UnaryOp(op=ast.UAdd(), operand=v)
        return v

    # -- num (int | float | complex) ----------------------------------------------------
    def g_num(self, d, sc, safe):
        k = self.n(5)
        g = self.gen
        if k == 0:
            return g("int", d, sc, safe)
        if k == 1:
            right = _const(self.pick([2, 4, 0.5, 3])) if self.chance(85) else g("num", d - 1, sc, False)
            return ast.BinOp(left=g("num", d - 1, sc, False), op=ast.Div(), right=right)
        if k == 2 and self.on("pow"):
            return ast.BinOp(left=g("num", d - 1, sc, False), op=ast.Pow(), right=_const(self.pick([0, 1, 2, 0.5, -1])))
        if k == 3:
            return ast.UnaryOp(op=self.pick([ast.USub, ast.UAdd])(), operand=g("num", d - 1, sc, False))
        return ast.BinOp(left=g("num", d - 1, sc, False), op=self.pick([ast.Add, ast.Sub, ast.Mult])(),
                         right=g("num", d - 1, sc, False))

    # -- str ----------------------------------------------------------------------------
    def g_str(self, d, sc, safe):
        k = self.n(12)
        if k >= 10:
            k = 8
        g = self.gen
        if k == 0:
            return ast.BinOp(left=g("str", d - 1, sc, False), op=ast.Add(), right=g("str", d - 1, sc, False))
        if k == 1:
            return ast.BinOp(left=g("str", d - 1, sc, False), op=ast.Mult(), right=_const(self.n(4)))
        if k == 2:
            fmt = self.pick(["%s-%d", "[%r|%s]", "%03d:%s"])
            a, b = ("str", "int") if fmt == "%s-%d" else (("any_printable", "str") if fmt[1] == "%" else ("int", "str"))
            return ast.BinOp(left=_const(fmt), op=ast.Mod(),
                             right=ast.Tuple(elts=[self.printable(d - 1, sc) if a == "any_printable" else g(a, d - 1, sc),
                                                   g(b, d - 1, sc)], ctx=ast.Load()))
        if k == 3:
            meth = self.pick(["upper", "lower", "strip", "title", "swapcase"])
            return _call(_attr(g("str", d - 1, sc, False), meth), [])
        if k == 4:
            return _call(_attr(g("str", d - 1, sc, False), "replace"), [g("str", d - 1, sc), g("str", d - 1, sc)])
        if k == 5:
            return _sub(g("str", d - 1, sc, False), self.slice(d - 1, sc))
        if k == 6:
            return _call(self.pick(["str", "repr"]), [self.printable(d - 1, sc)])
        if k == 7:
            gens, sc2 = self.comp_gens(d, sc)
            with self.comp_body():
                elt = _call("str", [g("int", d - 1, sc2)])
            comp = self.pick([ast.ListComp, ast.GeneratorExp])(elt=elt, generators=gens)
            return _call(_attr(_const(self.pick([", ", "", "'", "\n"])), "join"), [comp])
        if k == 8 and self.on("fstring"):
            return self.fstring(d, sc)
        if k == 9:
            return _call(self.helper("fid"), [g("str", d - 1, sc)])
        return ast.BinOp(left=g("str", d - 1, sc, False), op=ast.Add(), right=_const(self.strconst()))

    def printable(self, d, sc):
        """A value whose str()/repr() carries no object address."""
        return self.gen(self.pick(["int", "str", "bool", "list", "tuple", "dict", "none", "set"]), d, sc)

    def slice(self, d, sc):
        def part():
            if self.chance(40):
                return None
            if self.chance(70):
                return _const(self.pick([0, 1, 2, -1, -2, 3]))
            return self.gen("int", d, sc)
        lower, upper = part(), part()
        step = None
        if self.chance(30):
            step = _const(self.pick([1, 2, -1, -2])) if self.chance(85) else _const(None)
        return ast.Slice(lower=lower, upper=upper, step=step)

    def fstring(self, d, sc):
        vals = []
        for _ in range(1 + self.n(3)):
            if self.chance(40):
                s = self.strconst()
                if s:
                    vals.append(_const(s))
            kind = self.n(4)
            conv = -1
            spec = None
            if kind == 0:
                v = self.gen("int", d - 1, sc, False)
                if self.chance(50):
                    sp = self.pick(["d", "04d", "x", ">6", "+", ","])
                    spec = ast.JoinedStr(values=[_const(sp)])
                elif self.chance(30):
                    spec = ast.JoinedStr(values=[_const(">"), ast.FormattedValue(value=self.gen("int", 0, sc), conversion=-1,
                                                                                   format_spec=None)])
            elif kind == 1:
                v = self.gen("str", d - 1, sc, False)
                conv = self.pick([-1, -1, 114, 115, 97])
                if self.chance(40):
                    spec = ast.JoinedStr(values=[_const(self.pick([">6", "^8", ".2", "<3"]))])
            else:
                v = self.printable(d - 1, sc)
                conv = self.pick([-1, 114, 115])
            vals.append(ast.FormattedValue(value=v, conversion=conv, format_spec=spec))
        if self.chance(30):
            s = self.strconst()
            if s:
                vals.append(_const(s))
        return ast.JoinedStr(values=vals)

    # -- bool ---------------------------------------------------------------------------
    def g_bool(self, d, sc, safe):
        k = self.n(10)
        g = self.gen
        if k == 9:
            # truth values compared with each other: a comparison as operand of a comparison
            ops = [self.pick([ast.Eq, ast.NotEq, ast.Is, ast.IsNot, ast.Lt])() for _ in range(self.pick([1, 1, 2]))]
            return ast.Compare(left=g("bool", d - 1, sc, False), ops=ops,
                               comparators=[g("bool", d - 1, sc, False) for _ in ops])
        if k <= 1:
            ty = self.pick(["int", "int", "str", "num"])
            ops = [ast.Lt, ast.LtE, ast.Gt, ast.GtE, ast.Eq, ast.NotEq] if ty != "num" else [ast.Eq, ast.NotEq]
            nops = self.pick([1, 1, 2, 3])
            return ast.Compare(left=g(ty, d - 1, sc, False), ops=[self.pick(ops)() for _ in range(nops)],
                               comparators=[g(ty, d - 1, sc, False) for _ in range(nops)])
        if k == 2:
            op = self.pick([ast.In, ast.NotIn])()
            which = self.n(3)
            if which == 0:
                return ast.Compare(left=g("int", d - 1, sc, False), ops=[op], comparators=[g(self.pick(["list", "set", "tuple"]), d - 1, sc, False)])
            if which == 1:
                return ast.Compare(left=g("str", d - 1, sc, False), ops=[op], comparators=[g("str", d - 1, sc, False)])
            return ast.Compare(left=g("str", d - 1, sc, False), ops=[op], comparators=[g("dict", d - 1, sc, False)])
        if k == 3:
            nm = self.name(self.pick(["int", "str", "list", "dict"]), sc) or _call(self.helper("fid"), [_const(None)])
            return ast.Compare(left=nm, ops=[self.pick([ast.Is, ast.IsNot])()], comparators=[_const(None)])
        if k == 4 or k == 5:
            op = self.pick([ast.And, ast.Or])()
            return ast.BoolOp(op=op, values=[g("bool", d - 1, sc, False) for _ in range(2 + self.n(2))])
        if k == 6:
            return ast.UnaryOp(op=ast.Not(), operand=g(self.pick(["bool", "bool", "int", "list", "str"]), d - 1, sc, False))
        if k == 7:
            gens, sc2 = self.comp_gens(d, sc)
            with self.comp_body():
                elt = g("bool", d - 1, sc2)
            return _call(self.pick(["any", "all"]), [ast.GeneratorExp(elt=elt, generators=gens)])
        return _call(_attr(g("str", d - 1, sc, False), self.pick(["startswith", "endswith"])), [g("str", d - 1, sc)])

    # -- containers ---------------------------------------------------------------------
    def elts(self, d, sc, elt_ty="int", star_ty=("list", "tuple"), call=False):
        out = []
        for _ in range(self.n(4)):
            if self.chance(25):
                # "*x" in a display takes a bitwise-or expression (a conditional needs parentheses), in a call any expression
                out.append(ast.Starred(value=self.gen(self.pick(list(star_ty)), d - 1, sc, call), ctx=ast.Load()))
            else:
                out.append(self.gen(elt_ty, d - 1, sc, True))
        return out

    def g_list(self, d, sc, safe):
        k = self.n(10)
        g = self.gen
        if k <= 1:
            return ast.List(elts=self.elts(d, sc), ctx=ast.Load())
        if k == 2:
            gens, sc2 = self.comp_gens(d, sc)
            with self.comp_body():
                elt = g("int", d - 1, sc2)
            return ast.ListComp(elt=elt, generators=gens)
        if k == 3:
            return ast.BinOp(left=g("list", d - 1, sc, False), op=ast.Add(), right=g("list", d - 1, sc, False))
        if k == 4:
            return _sub(g("list", d - 1, sc, False), self.slice(d - 1, sc))
        if k == 5:
            v = self.fresh("v")
            with self.fn_body():
                key = ast.Lambda(args=_arguments(args=[v]), body=g("int", d - 1, dict(sc, **{v: "int"}), True))
            kws = [_kw("key", key)]
            if self.chance(40):
                kws.append(_kw("reverse", g("bool", d - 1, sc)))
            return _call("sorted", [g("list", d - 1, sc)], kws)
        if k == 6:
            v = self.fresh("v")
            fn = self.pick(["map", "filter"])
            with self.fn_body():
                body = g("int" if fn == "map" else "bool", d - 1, dict(sc, **{v: "int"}), True)
            return _call("list", [_call(fn, [ast.Lambda(args=_arguments(args=[v]), body=body), g("list", d - 1, sc)])])
        if k == 7:
            which = self.n(4)
            if which == 0:
                return _call("list", [_call("range", [_const(self.n(5))])])
            if which == 1:
                return _call("sorted", [g("set", d - 1, sc)])
            if which == 2:
                return _call("list", [g("tuple", d - 1, sc)])
            return _call("sorted", [_call(_attr(g("dict", d - 1, sc, False), "values"), [])])
        if k == 8:
            return ast.BinOp(left=g("list", d - 1, sc, False), op=ast.Mult(), right=_const(self.n(3)))
        return _call(self.helper("fid"), [g("list", d - 1, sc)])

    def g_tuple(self, d, sc, safe):
        k = self.n(12)
        if k >= 9:
            k = 4
        elif k >= 7:
            k = 5
        g = self.gen
        if k <= 1:
            return ast.Tuple(elts=self.elts(d, sc, elt_ty=self.pick(["int", "any", "str"])), ctx=ast.Load())
        if k == 2:
            return _call("tuple", [g("list", d - 1, sc)])
        if k == 3:
            return _call("divmod", [g("int", d - 1, sc), _const(1 + self.n(9))])
        if k == 4:
            return self.pick_call(d, sc)
        if k == 5:
            return self.echo_sub(d, sc)
        return ast.BinOp(left=g("tuple", d - 1, sc, False), op=ast.Add(), right=g("tuple", d - 1, sc, False))

    def pick_call(self, d, sc):
        """fpick(positional, *star, key=word, **dstar) -> (args, sorted kwargs)"""
        args = self.elts(d, sc, elt_ty="any", call=True)
        kws = []
        names = ["ka", "kb", "kc"]
        for nm in names[: self.n(3)]:
            kws.append(_kw(nm, self.gen("any", d - 1, sc, True)))
        if self.on("call_dstar") and self.chance(35):
            # keys of a generated dict are a, b, q: never collide with ka/kb/kc
            kws.insert(self.n(len(kws) + 1), ast.keyword(arg=None, value=self.gen("dict", d - 1, sc, True)))
        return _call(self.helper("fpick"), args, kws)

    def echo_sub(self, d, sc):
        """ga[...] with every slice form; Echo returns ("item", key)."""
        if "ga" not in self.env.get("echo", []) or not self.free_ok:
            return ast.Tuple(elts=[self.gen("int", d - 1, sc)], ctx=ast.Load())
        self.used.add("ga")

        def dim():
            w = self.n(3)
            if w == 0:
                return self.gen("int", d - 1, sc, True)
            if w == 1:
                return self.slice(d - 1, sc)
            return _const(self.pick(["k", None, 3]))
        if self.on("tuple_slice") and self.chance(50):
            dims = [dim() for _ in range(2 + self.n(2))]
            if not any(isinstance(x, ast.Slice) for x in dims):
                dims[self.n(len(dims))] = self.slice(d - 1, sc)
            sl = ast.Tuple(elts=dims, ctx=ast.Load())
        else:
            w = self.n(3)
            if w == 0:
                sl = self.slice(d - 1, sc)
            elif w == 1:
                sl = ast.Tuple(elts=[self.gen("int", d - 1, sc, True) for _ in range(2)], ctx=ast.Load())
            else:
                sl = self.gen(self.pick(["int", "str"]), d - 1, sc, True)
        return _sub(_load("ga"), sl)

    def g_set(self, d, sc, safe):
        k = self.n(5)
        g = self.gen
        if k == 0:
            e = self.elts(d, sc, star_ty=("list", "tuple", "set"))
            if not e:
                e = [g("int", d - 1, sc)]
            return ast.Set(elts=e)
        if k == 1:
            gens, sc2 = self.comp_gens(d, sc)
            with self.comp_body():
                elt = g("int", d - 1, sc2)
            return ast.SetComp(elt=elt, generators=gens)
        if k == 2:
            return _call("set", [g("list", d - 1, sc)])
        op = self.pick([ast.BitOr, ast.BitAnd, ast.Sub, ast.BitXor])()
        return ast.BinOp(left=g("set", d - 1, sc, False), op=op, right=g("set", d - 1, sc, False))

    def g_dict(self, d, sc, safe):
        k = self.n(5)
        g = self.gen
        if k <= 1:
            keys, vals = [], []
            for nm in ["a", "b", "q", "r"][: self.n(4)]:
                if self.on("dict_unpack") and self.chance(25):
                    keys.append(None)
                    vals.append(g("dict", d - 1, sc, True))
                keys.append(_const(nm))
                vals.append(g("int", d - 1, sc, True))
            if self.on("dict_unpack") and self.chance(25):
                keys.append(None)
                vals.append(g("dict", d - 1, sc, True))
            return ast.Dict(keys=keys, values=vals)
        if k == 2:
            gens, sc2 = self.comp_gens(d, sc)
            with self.comp_body():
                key = _call("str", [g("int", d - 1, sc2)])
                val = g("int", d - 1, sc2)
            return ast.DictComp(key=key, value=val, generators=gens)
        if k == 3:
            kws = [_kw(nm, g("int", d - 1, sc, True)) for nm in ["a", "b"][: 1 + self.n(2)]]
            if self.on("call_dstar") and self.chance(40):
                kws.append(ast.keyword(arg=None, value=ast.Dict(keys=[_const("q")], values=[g("int", d - 1, sc)])))
            return _call("dict", [], kws)
        return _call(self.helper("fid"), [g("dict", d - 1, sc)])

    def g_none(self, d, sc, safe):
        if self.chance(50):
            return _call(self.helper("fid"), [_const(None)])
        return _call(_attr(self.gen("dict", d - 1, sc, False), "get"), [_const("zz")])

    # -- comprehension clauses ----------------------------------------------------------
    def comp_gens(self, d, sc, stem="c"):
        gens = []
        sc2 = dict(sc)
        with _Region(self, "no_walrus"):
            for i in range(self.pick([1, 1, 1, 2])):
                w = self.n(4)
                if w <= 1:
                    t = self.fresh(stem)
                    if self.block_mode and self.in_fn > 0 and self.on("comp_var_reuse") and self.free_ok and self.chance(12):
                        # inside a function, the comprehension variable has the name of a free variable that the function
                        # reads elsewhere (at the top level of a block test_ast.py::test_locate_identifiers_9 pins that a
                        # comprehension variable counts as assigned by the block, so that is not generated)
                        # "ir" is read nowhere else than right after the comprehension, in the same function: CPython
                        # 3.12.1 mis-scopes a name that is both an inlined comprehension variable and a free variable
                        # of a function nested next to it (NameError "cannot access free variable"; 3.11 is right)
                        t = "ir"
                        self.reused.append(t)
                    target = _store(t)
                    it = self.gen("list", d - 1, sc2, False) if self.chance(70) else _call("range", [_const(self.n(4))])
                    new = {t: "int"}
                elif w == 2:
                    a, b = self.fresh(stem), self.fresh(stem)
                    target = ast.Tuple(elts=[_store(a), _store(b)], ctx=ast.Store())
                    it = _call("enumerate", [self.gen("list", d - 1, sc2, True)])
                    new = {a: "int", b: "int"}
                else:
                    a, b = self.fresh(stem), self.fresh(stem)
                    target = ast.Tuple(elts=[_store(a), _store(b)], ctx=ast.Store())
                    it = _call(_attr(self.gen("dict", d - 1, sc2, False), "items"), [])
                    new = {a: "str", b: "int"}
                sc2.update(new)
                with self.comp_body():
                    ifs = [self.gen("bool", d - 1, sc2, False) for _ in range(self.pick([0, 0, 1, 2]))]
                gens.append(ast.comprehension(target=target, iter=it, ifs=ifs, is_async=0))
        return gens, sc2

    # -- lambdas ------------------------------------------------------------------------
    def signature(self, d, sc, lam=True):
        """-> (ast.arguments, scope additions, call args, call keywords); defaults are int expressions."""
        kw_flag = "lambda_kwonly" if lam else None
        po_flag = "lambda_posonly" if lam else None
        npos = self.n(2) if (po_flag is None or self.on(po_flag)) and self.chance(30) else 0
        nplain = self.n(3)
        vararg = self.fresh("r") if self.chance(30) else None
        nkwo = (1 + self.n(2)) if (kw_flag is None or self.on(kw_flag)) and self.chance(35) else 0
        kwarg = self.fresh("k") if self.chance(25) else None
        posonly = [self.fresh() for _ in range(npos)]
        plain = [self.fresh() for _ in range(nplain)]
        kwonly = [self.fresh() for _ in range(nkwo)]
        allpos = posonly + plain
        ndef = self.n(len(allpos) + 1)
        if self.on("fn_default_free"):
            def dflt():
                return self.gen("int", min(d - 1, 1), sc, True)
        else:
            # parameter defaults that read a free name are a separate construct: constants / bound names only
            def dflt():
                keep, self.free_ok = self.free_ok, False
                try:
                    return self.leaf("int", sc)
                finally:
                    self.free_ok = keep
        defaults = [dflt() for _ in range(ndef)]
        kw_defaults = [dflt() if self.chance(50) else None for _ in kwonly]
        if self.on("fn_param_kinds"):
            add = {p: "int" for p in allpos + kwonly}
            if vararg:
                add[vararg] = "tuple"
            if kwarg:
                add[kwarg] = "dict"
        else:
            # bodies that read *args / keyword-only / **kwargs / positional-only parameters are a separate construct
            add = {p: "int" for p in plain}
        args = _arguments(posonly, plain, vararg, kwonly, kw_defaults, kwarg, defaults)
        required = len(allpos) - ndef
        given = required + self.n(ndef + 1)
        cargs = [self.gen("int", min(d - 1, 2), sc, True) for _ in range(given)]
        if vararg and given == len(allpos):
            cargs += [self.gen("int", min(d - 1, 1), sc, True) for _ in range(self.n(3))]
        ckw = []
        for nm, df in zip(kwonly, kw_defaults):
            if df is None or self.chance(50):
                ckw.append(_kw(nm, self.gen("int", min(d - 1, 2), sc, True)))
        if kwarg:
            for nm in ["a", "q"][: self.n(3)]:
                ckw.append(_kw(nm, self.gen("int", min(d - 1, 1), sc, True)))
        return args, add, cargs, ckw

    def lambda_call(self, ty, d, sc, safe):
        args, add, cargs, ckw = self.signature(d, sc)
        self.no_walrus += 1  # a walrus in a lambda body binds a lambda local: harmless but unobservable
        with self.fn_body():
            body = self.gen(ty, d - 1, dict(sc, **add), True)
        self.no_walrus -= 1
        lam = ast.Lambda(args=args, body=body)
        if self.on("lambda_tight") and self.chance(35):
            w = self.n(3)
            if w == 0:
                return _call(lam, cargs, ckw)
            if w == 1:
                fn = ast.BoolOp(op=ast.Or(), values=[lam, self.helper("fid")])
            else:
                fn = ast.IfExp(test=_const(True) if self.chance(50) else self.gen("bool", d - 1, sc, False), body=lam,
                               orelse=lam)
            return _call(self.helper("fcall"), [fn] + cargs, ckw)
        return _call(self.helper("fcall"), [lam] + cargs, ckw)


def draw_envspec(draw, flags):
    """-> (envspec: JSON description of values, envtypes: {type: [names]})"""
    from hypothesis import strategies as st

    def n(k):
        return draw(st.integers(0, k - 1))

    def s():
        return "".join(STR_ATOMS[n(len(STR_ATOMS))] for _ in range(n(5)))

    spec = {}
    types_ = {}
    ints = list(INT_VARS) + (ESCAPE_NAMES[: 1 + n(4)] if "escape_names" in flags else [])
    for nm in ints:
        spec[nm] = n(13) - 3
    types_["int"] = ints
    for nm in STR_VARS:
        spec[nm] = s()
    types_["str"] = list(STR_VARS)
    for nm in LIST_VARS:
        spec[nm] = [n(10) for _ in range(3 + n(3))]
    types_["list"] = list(LIST_VARS)
    spec["da"] = {"a": n(10), "b": n(10), "c": n(10)}
    types_["dict"] = ["da"]
    spec["ta"] = ["@tuple", [n(10) for _ in range(2 + n(3))]]
    types_["tuple"] = ["ta"]
    spec["za"] = ["@set", [n(10) for _ in range(1 + n(4))]]
    types_["set"] = ["za"]
    spec["ir"] = n(10)  # only ever read by BlockGen.read_reused (see ExprGen.comp_gens)
    spec["ba"] = bool(n(2))
    types_["bool"] = ["ba"]
    spec["ga"] = "@Echo"
    types_["echo"] = ["ga"]
    spec["ma"] = ["@Mat", 1]
    spec["mb"] = ["@Mat", 2]
    types_["mat"] = ["ma", "mb"]
    return spec, types_


def expressions(flags=ALL_FLAGS, max_depth=5, types=None):
    """Strategy of ExprCase: one expression of depth <= max_depth with the environment it needs."""
    from hypothesis import strategies as st

    flags = frozenset(flags)

    @st.composite
    def build(draw):
        spec, envtypes = draw_envspec(draw, flags)
        g = ExprGen(draw, flags, envtypes)
        ty = g.pick(types or (TYPES + ["mat"] if "matmul" in flags else TYPES))
        d = g.pick([2, 3, 4, 5, 5])
        if ty == "mat":
            node = _matmul(g, d)
        else:
            node = g.gen(ty, d, {}, True)
        node = ast.fix_missing_locations(ast.Expression(body=node))
        src = ast.unparse(node)
        used = {k: v for k, v in spec.items() if k in g.used}
        return ExprCase(src, used, ty)

    return build()


def _matmul(g, d):
    def m(dd):
        if dd <= 0 or g.chance(50):
            nm = g.pick(["ma", "mb"])
            g.used.add(nm)
            return _load(nm)
        return ast.BinOp(left=m(dd - 1), op=ast.MatMult(), right=m(dd - 1) if g.chance(70) else g.gen("int", dd - 1, {}, False))
    node = ast.BinOp(left=m(d - 1), op=ast.MatMult(), right=m(d - 1))
    if g.chance(40):
        return _attr(node, "v")
    return node


# --------------------------------------------------------------------------------------------
# statement blocks
# --------------------------------------------------------------------------------------------
IMPORTS = [
    # (statement, value expression using the bound name, type)
    ("import math", "math.floor(2.5)", "int"),
    ("import os.path", "os.path.basename('a/b')", "str"),
    ("import os.path as osp", "osp.join('a', 'b')", "str"),
    ("from os.path import basename, dirname as dn", "dn('a/b') + basename('c/d')", "str"),
    ("import json, string", "json.dumps([1, 2]) + string.digits[:2]", "str"),
    ("from itertools import chain", "list(chain([1], [2]))", "list"),
    ("from functools import reduce as red", "red(max, [3, 1, 2], 0)", "int"),
    ("import collections.abc", "len(collections.abc.__name__)", "int"),
]
RISKY = ["[1, 2][9]", "1 // 0", "{'a': 1}['zz']", "int('q')", "[1, 2][0]", "4 // 2"]
CAUGHT = ["KeyError", "IndexError", "ZeroDivisionError", "ValueError", "LookupError", "ArithmeticError", "Exception"]


def _assign(name, value):
    return ast.Assign(targets=[_store(name)], value=value, lineno=0)


def _parse_expr(text):
    return ast.parse(text, mode="eval").body


class BlockGen:
    def __init__(self, draw, flags, envtypes):
        self.x = ExprGen(draw, flags, envtypes)
        self.x.block_mode = True
        self.flags = flags
        self.feats = set()
        self.deleted = set()
        self.outer = set()  # names of enclosing scopes: rebinding them in a function would make them unbound locals

    def on(self, f):
        return f in self.flags

    # -- expressions in the current scope -------------------------------------------------
    def e(self, ty, sc, d=None):
        return self.x.gen(ty, self.x.pick([1, 2, 2, 3]) if d is None else d, {k: v for k, v in sc.items()}, True)

    def new(self, stem="v"):
        return self.x.fresh(stem)

    # -- a block ----------------------------------------------------------------------------
    def block(self):
        sc = {}
        body = self.stmts(sc, 2, 2 + self.x.n(5), loop=False, fn=False)
        body += self.read_reused(sc, 0)
        outs = sorted(k for k in sc if k not in self.deleted)
        return body, outs

    def read_reused(self, sc, before):
        out = []
        for nm in sorted(set(self.x.reused[before:])):
            if nm not in sc and self.x.free_ok:
                v = self.new()
                self.x.used.add(nm)
                out.append(_assign(v, _load(nm)))
                sc[v] = "int"
        return out

    def stmts(self, sc, depth, n, loop, fn):
        out = []
        for _ in range(n):
            out += self.stmt(sc, depth, loop, fn)
        return out or [ast.Pass()]

    def stmt(self, sc, depth, loop, fn):
        x = self.x
        k = x.n(20)
        if depth <= 0 and k >= 6 and k <= 12:
            k = k % 6
        if k <= 3:
            return self.assign(sc)
        if k == 4:
            return self.augassign(sc)
        if k == 5:
            return self.expr_stmt(sc)
        if k == 6:
            return self.for_(sc, depth, fn)
        if k == 7:
            return self.while_(sc, depth, fn)
        if k == 8:
            return self.if_(sc, depth, loop, fn)
        if k == 9:
            return self.try_(sc, depth, loop, fn)
        if k == 10:
            return self.with_(sc, depth, loop, fn)
        if k == 11 or k == 12:
            return self.funcdef(sc, depth)
        if k == 13:
            return self.import_(sc)
        if k == 14:
            return self.lambda_assign(sc)
        if k == 15:
            return self.comp_assign(sc)
        if k == 16:
            return self.del_(sc)
        if k == 17:
            return self.walrus_if(sc, depth, loop, fn)
        if k == 18 and loop:
            test = self.e("bool", sc, 1)
            return [ast.If(test=test, body=[x.pick([ast.Break, ast.Continue])()], orelse=[])]
        return self.assign(sc)

    # -- simple statements ------------------------------------------------------------------
    def assign(self, sc):
        x = self.x
        k = x.n(8)
        if k <= 2:
            ty = x.pick(["int", "str", "list", "dict", "bool", "tuple", "set", "any"])
            if ty == "any":
                ty = x.pick(TYPES)
            v = self.new()
            st = _assign(v, self.e(ty, sc))
            sc[v] = ty
            return [st]
        if k == 3:
            a, b = self.new(), self.new()
            st = ast.Assign(targets=[ast.Tuple(elts=[_store(a), _store(b)], ctx=ast.Store())],
                            value=ast.Tuple(elts=[self.e("int", sc), self.e("str", sc)], ctx=ast.Load()), lineno=0)
            sc[a], sc[b] = "int", "str"
            return [st]
        if k == 4:
            a, b = self.new(), self.new()
            st = ast.Assign(targets=[_store(a), _store(b)], value=self.e("int", sc), lineno=0)
            sc[a] = sc[b] = "int"
            return [st]
        if k == 5:
            a, b = self.new(), self.new()
            val = ast.BinOp(left=ast.List(elts=[self.e("int", sc)], ctx=ast.Load()), op=ast.Add(), right=self.e("list", sc))
            st = ast.Assign(targets=[ast.Tuple(elts=[_store(a), ast.Starred(value=_store(b), ctx=ast.Store())], ctx=ast.Store())],
                            value=val, lineno=0)
            sc[a], sc[b] = "int", "list"
            return [st]
        if k == 6:
            loc = [n_ for n_, t in sc.items() if t in ("list", "dict") and n_ not in self.deleted]
            if loc:
                nm = x.pick(loc)
                idx = _const(x.pick([0, 1, -1])) if sc[nm] == "list" else _const(x.pick(["a", "k"]))
                return [ast.Assign(targets=[ast.Subscript(value=_load(nm), slice=idx, ctx=ast.Store())],
                                   value=self.e("int", sc), lineno=0)]
        a, b, c = self.new(), self.new(), self.new()
        tgt = ast.Tuple(elts=[ast.Tuple(elts=[_store(a), _store(b)], ctx=ast.Store()), _store(c)], ctx=ast.Store())
        val = ast.Tuple(elts=[ast.Tuple(elts=[self.e("int", sc), self.e("int", sc)], ctx=ast.Load()), self.e("str", sc)],
                        ctx=ast.Load())
        sc[a] = sc[b] = "int"
        sc[c] = "str"
        return [ast.Assign(targets=[tgt], value=val, lineno=0)]

    def augassign(self, sc):
        """v op= expr, followed by a statement that keeps v small: the right-hand side may mention v itself, and inside
        nested loops that is exponential growth"""
        x = self.x
        loc = [n_ for n_, t in sc.items() if t in ("int", "str", "list") and n_ not in self.deleted and n_ not in self.outer]
        if not loc:
            return self.assign(sc)
        nm = x.pick(loc)
        t = sc[nm]
        if t == "int":
            op = x.pick([ast.Add, ast.Sub, ast.Mult, ast.FloorDiv, ast.Pow, ast.BitOr])()
            val = _const(1 + x.n(3)) if isinstance(op, (ast.FloorDiv, ast.Pow)) else self.e("int", sc)
            pre = [ast.AugAssign(target=_store(nm), op=ast.Mod(), value=_const(7))] if isinstance(op, ast.Pow) else []
            return pre + [ast.AugAssign(target=_store(nm), op=op, value=val),
                          ast.AugAssign(target=_store(nm), op=ast.Mod(), value=_const(1000003))]
        if t == "str":
            op, val = ast.Add(), self.e("str", sc)
        else:
            op, val = ast.Add(), self.e("list", sc)
        return [ast.AugAssign(target=_store(nm), op=op, value=val),
                _assign(nm, _sub(_load(nm), ast.Slice(lower=None, upper=_const(40), step=None)))]

    def expr_stmt(self, sc):
        x = self.x
        loc = [n_ for n_, t in sc.items() if t in ("list", "dict") and n_ not in self.deleted]
        if loc and x.chance(70):
            nm = x.pick(loc)
            if sc[nm] == "list":
                call = _call(_attr(_load(nm), x.pick(["append", "append", "extend"])), [self.e("int", sc)])
                if call.func.attr == "extend":
                    call.args = [self.e("list", sc)]
                # keep the list short (the argument may be the list itself, inside nested loops)
                return [ast.Expr(value=call),
                        ast.Delete(targets=[ast.Subscript(value=_load(nm), slice=ast.Slice(lower=_const(40), upper=None, step=None),
                                                          ctx=ast.Del())])]
            call = _call(_attr(_load(nm), "update"), [], [_kw("k", self.e("int", sc))])
            return [ast.Expr(value=call)]
        return [ast.Expr(value=_call(x.helper("fid"), [self.e("int", sc)]))]

    def del_(self, sc):
        x = self.x
        k = x.n(3)
        if k == 0:
            v = self.new()
            return [_assign(v, self.e("int", sc)), ast.Delete(targets=[ast.Name(id=v, ctx=ast.Del())])]
        v = self.new()
        if k == 1:
            val = ast.BinOp(left=ast.List(elts=[_const(1), _const(2)], ctx=ast.Load()), op=ast.Add(), right=self.e("list", sc))
            sc[v] = "list"
            return [_assign(v, val),
                    ast.Delete(targets=[ast.Subscript(value=_load(v), slice=_const(x.pick([0, -1])), ctx=ast.Del())])]
        val = ast.Dict(keys=[_const("a"), _const("k")], values=[self.e("int", sc), _const(2)])
        sc[v] = "dict"
        return [_assign(v, val),
                ast.Delete(targets=[ast.Subscript(value=_load(v), slice=_const("k"), ctx=ast.Del())])]

    def import_(self, sc):
        stmt, use, ty = self.x.pick(IMPORTS)
        v = self.new()
        sc[v] = ty
        self.feats.add("import")
        return [ast.parse(stmt).body[0], _assign(v, _parse_expr(use))]

    def comp_assign(self, sc):
        x = self.x
        ty = x.pick(["list", "set", "dict", "int"])
        v = self.new()
        gens, sc2 = x.comp_gens(2, dict(sc))
        with x.comp_body():
            elt = x.gen("int", 2, sc2)
        if ty == "list":
            val = ast.ListComp(elt=elt, generators=gens)
        elif ty == "set":
            val = ast.SetComp(elt=elt, generators=gens)
        elif ty == "dict":
            val = ast.DictComp(key=_call("str", [elt]), value=elt, generators=gens)
        else:
            val = _call("sum", [ast.GeneratorExp(elt=elt, generators=gens)])
        sc[v] = ty
        return [_assign(v, val)]

    def lambda_assign(self, sc):
        x = self.x
        args, add, cargs, ckw = x.signature(2, dict(sc))
        ty = x.pick(["int", "str", "list", "tuple"])
        with x.fn_body():
            body = x.gen(ty, 2, dict(sc, **add), True)
        f, v = self.new("fn"), self.new()
        sc[f] = "fn"
        sc[v] = ty
        self.feats.add("lambda")
        return [_assign(f, ast.Lambda(args=args, body=body)), _assign(v, _call(_load(f), cargs, ckw))]

    # -- compound statements ----------------------------------------------------------------
    def body(self, sc, depth, loop, fn, extra=None):
        """statements of a nested suite; bindings made inside are not visible after it"""
        inner = dict(sc)
        if extra:
            inner.update(extra)
        return self.stmts(inner, depth - 1, 1 + self.x.n(3), loop, fn), inner

    def for_(self, sc, depth, fn):
        x = self.x
        acc = self.new()
        pre = [_assign(acc, _const(0))]
        sc[acc] = "int"
        w = x.n(4)
        if w == 0:
            t = self.new("i")
            target, it, add = _store(t), _call("range", [_const(x.n(4))]), {t: "int"}
        elif w == 1:
            t = self.new("i")
            target, it, add = _store(t), _call("list", [self.e("list", sc)]), {t: "int"}
        elif w == 2:
            a, b = self.new("i"), self.new("i")
            target = ast.Tuple(elts=[_store(a), _store(b)], ctx=ast.Store())
            it, add = _call("enumerate", [_call("list", [self.e("list", sc)])]), {a: "int", b: "int"}
        else:
            a, b = self.new("i"), self.new("i")
            target = ast.Tuple(elts=[_store(a), _store(b)], ctx=ast.Store())
            it, add = _call("list", [_call(_attr(self.e("dict", sc), "items"), [])]), {a: "str", b: "int"}
        body, inner = self.body(sc, depth, True, fn, add)
        body.append(ast.AugAssign(target=_store(acc), op=ast.Add(), value=self.e("int", inner, 1)))
        body.append(ast.AugAssign(target=_store(acc), op=ast.Mod(), value=_const(1000003)))
        orelse = self.body(sc, depth, False, fn)[0] if x.chance(25) else []
        return pre + [ast.For(target=target, iter=it, body=body, orelse=orelse, lineno=0)]

    def while_(self, sc, depth, fn):
        x = self.x
        k = self.new("k")
        pre = [_assign(k, _const(1 + x.n(3)))]
        sc[k] = "counter"  # never an operand or target of generated code: the loop terminates
        body, _ = self.body(sc, depth, True, fn)
        body.insert(0, ast.AugAssign(target=_store(k), op=ast.Sub(), value=_const(1)))
        orelse = self.body(sc, depth, False, fn)[0] if x.chance(25) else []
        return pre + [ast.While(test=ast.Compare(left=_load(k), ops=[ast.Gt()], comparators=[_const(0)]), body=body, orelse=orelse)]

    def if_(self, sc, depth, loop, fn):
        x = self.x
        v = self.new()
        ty = x.pick(["int", "str", "list"])
        test = self.e("bool", sc)
        b1, i1 = self.body(sc, depth, loop, fn)
        b1.append(_assign(v, self.e(ty, i1)))
        node = ast.If(test=test, body=b1, orelse=[])
        cur = node
        for _ in range(x.pick([0, 0, 1])):
            b2, i2 = self.body(sc, depth, loop, fn)
            b2.append(_assign(v, self.e(ty, i2)))
            nxt = ast.If(test=self.e("bool", sc), body=b2, orelse=[])
            cur.orelse = [nxt]
            cur = nxt
        b3, i3 = self.body(sc, depth, loop, fn)
        b3.append(_assign(v, self.e(ty, i3)))
        cur.orelse = b3
        sc[v] = ty
        return [node]

    def try_(self, sc, depth, loop, fn):
        x = self.x
        v = self.new()
        risky = _parse_expr(x.pick(RISKY)) if x.chance(70) else self.e("int", sc)
        b, inner = self.body(sc, depth, loop, fn)
        b.append(_assign(v, risky))
        handlers = []
        for _ in range(1 + x.n(2)):
            en = self.new("ex") if x.chance(70) else None
            types_ = [x.pick(CAUGHT if self.on("keyerror_name") else CAUGHT[1:]) for _ in range(1 + x.n(2))]
            ty_node = _load(types_[0]) if len(types_) == 1 else ast.Tuple(elts=[_load(t) for t in types_], ctx=ast.Load())
            hb = [_assign(v, _attr(_call("type", [_load(en)]), "__name__") if en else _const("caught"))]
            if x.chance(40):
                hb = self.body(sc, depth, loop, fn, {en: "exc"} if en else None)[0] + hb
            handlers.append(ast.ExceptHandler(type=ty_node, name=en, body=hb))
        if x.chance(50):
            handlers.append(ast.ExceptHandler(type=None, name=None, body=[_assign(v, _const("bare"))]))
            bare = True
        else:
            bare = False
        orelse = self.body(sc, depth, loop, fn)[0] if x.chance(25) else []
        final = []
        if x.chance(35):
            f = self.new()
            final = [_assign(f, self.e("int", sc, 1))]
            sc[f] = "int"
        self.feats.add("try")
        if bare:
            sc[v] = "any"  # bound on every path
        return [ast.Try(body=b, handlers=handlers, orelse=orelse, finalbody=final)]

    def with_(self, sc, depth, loop, fn):
        x = self.x
        w = x.n(3)
        cm = x.helper("Cm")
        if w == 0:
            a = self.new("c")
            ty = x.pick(["int", "str", "list"])
            items = [ast.withitem(context_expr=_call(cm, [self.e(ty, sc)]), optional_vars=_store(a))]
            add = {a: ty}
        elif w == 1:
            a, b = self.new("c"), self.new("c")
            items = [ast.withitem(context_expr=_call(cm, [self.e("int", sc)]), optional_vars=_store(a)),
                     ast.withitem(context_expr=_call(cm, [self.e("str", sc)]), optional_vars=_store(b))]
            add = {a: "int", b: "str"}
        else:
            a, b = self.new("c"), self.new("c")
            val = ast.Tuple(elts=[self.e("int", sc), self.e("list", sc)], ctx=ast.Load())
            items = [ast.withitem(context_expr=_call(cm, [val]),
                                  optional_vars=ast.Tuple(elts=[_store(a), _store(b)], ctx=ast.Store()))]
            add = {a: "int", b: "list"}
        body, _ = self.body(sc, depth, loop, fn, add)
        sc.update(add)
        self.feats.add("with")
        return [ast.With(items=items, body=body, lineno=0)]

    def walrus_if(self, sc, depth, loop, fn):
        m = self.new("m")
        test = ast.Compare(left=ast.NamedExpr(target=_store(m), value=self.e("int", sc)), ops=[ast.Gt()], comparators=[_const(2)])
        sc[m] = "int"
        body, _ = self.body(sc, depth, loop, fn)
        return [ast.If(test=test, body=body, orelse=[])]

    # -- functions --------------------------------------------------------------------------
    def funcdef(self, sc, depth, nested=False):
        x = self.x
        name = self.new("g")
        args, add, cargs, ckw = x.signature(2, dict(sc), lam=False)
        a = args
        for kind, present in (("posonly", a.posonlyargs), ("plain", a.args), ("vararg", a.vararg), ("kwonly", a.kwonlyargs),
                              ("kwarg", a.kwarg)):
            if present:
                self.feats.add("par:" + kind)
        ret_ty = x.pick(["int", "str", "list", "tuple", "int"])
        before = len(x.reused)
        keep_outer = self.outer
        self.outer = set(sc) | set(add)
        with x.fn_body():
            fsc = dict(sc, **add)
            body = []
            late = None
            if self.on("fn_late_local") and depth > 0 and x.chance(25):
                # an inner function reads a local of this function that is bound further down
                late = self.new("z")
                inner = self.new("g")
                body.append(ast.FunctionDef(name=inner, args=_arguments(), decorator_list=[], lineno=0, body=[
                    ast.Return(value=ast.BinOp(left=_load(late), op=ast.Add(), right=self.e("int", fsc, 1)))]))
                self.feats.add("late_local")
            body += self.stmts(fsc, min(depth - 1, 1), x.n(3), False, True) if x.chance(70) else []
            if depth > 0 and x.chance(30):
                body += self.funcdef(fsc, depth - 1, nested=True)
                self.feats.add("nested_fn")
            if x.chance(20):
                body += self.nonlocal_counter(fsc)
            if x.chance(35):
                body += self.comp_assign(fsc)
                self.feats.add("comp_in_fn")
            if late:
                body.append(_assign(late, self.e("int", fsc, 1)))
                v = self.new("f")
                body.append(_assign(v, _call(_load(inner))))
                fsc[v] = "int"
            body += self.read_reused(fsc, before)
            body.append(ast.Return(value=self.e(ret_ty, fsc)))
        self.outer = keep_outer
        fn_node = ast.FunctionDef(name=name, args=args, body=body, decorator_list=[], lineno=0)
        v = self.new()
        sc[name] = "fn"
        sc[v] = ret_ty
        self.feats.add("def")
        return [fn_node, _assign(v, _call(_load(name), cargs, ckw))]

    def nonlocal_counter(self, fsc):
        c, inc = self.new("n"), self.new("g")
        fsc[c] = "int"
        return [_assign(c, _const(0)),
                ast.FunctionDef(name=inc, args=_arguments(), decorator_list=[], lineno=0, body=[
                    ast.Nonlocal(names=[c]), ast.AugAssign(target=_store(c), op=ast.Add(), value=self.e("int", fsc, 1))]),
                ast.Expr(value=_call(_load(inc))), ast.Expr(value=_call(_load(inc)))]


def blocks(flags=ALL_FLAGS):
    """Strategy of BlockCase: a statement block, the environment for its free names, the names it leaves bound."""
    from hypothesis import strategies as st

    flags = frozenset(flags)

    @st.composite
    def build(draw):
        spec, envtypes = draw_envspec(draw, flags - {"escape_names"})
        g = BlockGen(draw, flags, envtypes)
        body, outs = g.block()
        mod = ast.fix_missing_locations(ast.Module(body=body, type_ignores=[]))
        src = ast.unparse(mod)
        used = {k: v for k, v in spec.items() if k in g.x.used}
        return BlockCase(src, used, outs, sorted(g.feats))

    return build()

"""Runner core: repo import, evidence, known findings, replay files, sharding, hypothesis glue.

Every check is `python -m vf.check <PID> --tier quick|thorough [--replay path]`.
A property module `vf.props.cNN` exposes:

    PID, LEVEL, RULE, ASSUMPTIONS
    run(ctx)                 -> fills ctx.ev, appends to ctx.failures
    replay(case) -> Failure | None
    classify(failure) -> known-finding id or None   (optional)

Exit codes: 0 held (maybe with KNOWN-FINDING lines), 1 violation, 2 harness error.
"""
import atexit
import collections
import hashlib
import json
import multiprocessing
import os
import shutil
import sys
import tempfile
import time
import traceback

VERIF = os.path.dirname(os.path.dirname(os.path.abspath(__file__)))
REPO = os.environ.get("VERIF_REPO", "/repo")


def setup_repo():
    """Import mako from the working tree of REPO (pure Python: import == rebuild)."""
    if REPO not in sys.path[:1]:
        sys.path.insert(0, REPO)
    os.environ["PYTHONPATH"] = REPO + os.pathsep + VERIF
    os.environ.setdefault("MAKO_VERIF", "1")
    import mako

    here = os.path.realpath(os.path.dirname(mako.__file__))
    if not here.startswith(os.path.realpath(REPO) + os.sep):
        raise HarnessError("mako imported from %s, not from %s" % (here, REPO))
    return mako


class HarnessError(Exception):
    pass


class Failure(Exception):
    """An oracle failure on one generated case.

    case   : JSON-serialisable replay form
    detail : human readable expected/observed
    key    : root-cause bucket (string) used for de-duplication and known-finding matching
    """

    def __init__(self, case, detail, key="unclassified", info=None):
        super().__init__(detail)
        self.case = case
        self.detail = detail
        self.key = key
        self.info = info or {}

    def to_json(self):
        return {"case": self.case, "detail": self.detail, "key": self.key}


def fp(obj):
    """Stable 64-bit fingerprint of a JSON-like value."""
    if not isinstance(obj, (str, bytes)):
        obj = json.dumps(obj, sort_keys=True, default=repr)
    if isinstance(obj, str):
        obj = obj.encode("utf-8", "surrogatepass")
    return int.from_bytes(hashlib.sha1(obj).digest()[:8], "big")


def jsonable(x):
    try:
        json.dumps(x)
        return x
    except Exception:
        if isinstance(x, dict):
            return {str(k): jsonable(v) for k, v in x.items()}
        if isinstance(x, (list, tuple, set, frozenset)):
            return [jsonable(v) for v in x]
        if isinstance(x, bytes):
            return {"__bytes__": x.hex()}
        return repr(x)


class Evidence:
    MAX_SAMPLES = 6

    def __init__(self):
        self.evaluations = 0
        self.nontrivial = set()
        self.labels = collections.Counter()
        self.samples = []
        self.excluded_known = collections.Counter()
        self.rejected = 0
        self.distinct_extra = 0  # non-trivial cases enumerated exactly once by a sweep (distinct by construction)
        self.exhaustive = None
        self.notes = {}
        self._sample_keys = set()

    # -- recording -----------------------------------------------------
    def case(self, key=None, nontrivial=False, labels=(), sample=None, n=1):
        self.evaluations += n
        if nontrivial:
            self.nontrivial.add(fp(key) if not isinstance(key, int) else key)
        for l in labels:
            self.labels[l] += 1
        if sample is not None:
            self.sample(sample, labels[0] if labels else None)

    def sample(self, s, kind=None):
        """Keep a handful of samples, preferring one per kind."""
        if len(self.samples) >= self.MAX_SAMPLES:
            return
        if kind in self._sample_keys:
            return
        self._sample_keys.add(kind)
        self.samples.append(jsonable(s))

    def label(self, l, n=1):
        self.labels[l] += n

    # -- sharding ------------------------------------------------------
    def dump(self):
        return {
            "evaluations": self.evaluations,
            "nontrivial": self.nontrivial,
            "labels": dict(self.labels),
            "samples": self.samples,
            "excluded_known": dict(self.excluded_known),
            "rejected": self.rejected,
            "distinct_extra": self.distinct_extra,
            "notes": self.notes,
        }

    def merge(self, d):
        self.evaluations += d["evaluations"]
        self.nontrivial |= d["nontrivial"]
        self.labels.update(d["labels"])
        for s in d["samples"]:
            if len(self.samples) < self.MAX_SAMPLES and s not in self.samples:
                self.samples.append(s)
        self.excluded_known.update(d["excluded_known"])
        self.rejected += d["rejected"]
        self.distinct_extra += d.get("distinct_extra", 0)
        for k, v in d.get("notes", {}).items():
            if isinstance(v, (int, float)) and isinstance(self.notes.get(k), (int, float)):
                self.notes[k] += v
            else:
                self.notes[k] = v


class Ctx:
    def __init__(self, pid, tier, seed):
        self.pid = pid
        self.tier = tier
        self.seed = seed
        self.quick = tier == "quick"
        self.ev = Evidence()
        self.failures = []  # list[Failure]
        self.procs = int(os.environ.get("VERIF_PROCS", "0")) or min(16, os.cpu_count() or 1)
        self.t0 = time.time()

    def pick(self, quick, thorough):
        return quick if self.quick else thorough

    def shard_seed(self, shard, salt=""):
        h = hashlib.sha256(("%d/%s/%s/%s" % (self.seed, self.pid, salt, shard)).encode()).digest()
        return int.from_bytes(h[:4], "big")

    def fail(self, failure):
        self.failures.append(failure)

    # -- run shards in forked workers ---------------------------------
    def pmap(self, fn, tasks, procs=None):
        """fn(task) -> (evidence_dump, [failure_json...]); merges into ctx.

        fn runs in a forked child; it must build its own Evidence.
        """
        procs = procs or self.procs
        tasks = list(tasks)
        if procs <= 1 or len(tasks) <= 1:
            for dump, fails, err in map(_Shard(fn), tasks):
                self._take(dump, fails, err)
            return
        import concurrent.futures as cf

        mp = multiprocessing.get_context("fork")
        ex = cf.ProcessPoolExecutor(max_workers=min(procs, len(tasks)), mp_context=mp)
        futs = [ex.submit(_Shard(fn), t) for t in tasks]
        pids = set()
        try:
            for fut in cf.as_completed(futs):
                try:
                    dump, fails, err = fut.result()
                except cf.process.BrokenProcessPool:
                    # a worker killed itself because code under test could not be unwound (see trun.cpu_guard): its note names
                    # the case; the shards still queued are lost, which the evidence says
                    lost = sum(1 for f in futs if not f.done() or f.exception() is not None)
                    self.ev.notes["shards_lost_to_dead_worker"] = lost
                    found = False
                    for p in list(getattr(ex, "_processes", {}) or {}) + list(pids):
                        try:
                            with open(note_path(p)) as fh:
                                note = json.load(fh)
                            os.unlink(note_path(p))
                        except Exception:
                            continue
                        f = Failure(note["case"], "worker %d had to be killed while running this case: %s" % (p, note["what"]),
                                    "does-not-terminate")
                        f.info["no_confirm"] = True
                        self.failures.append(f)
                        found = True
                    if not found:
                        raise HarnessError("a worker process died without leaving a case note")
                    break
                pids.update(getattr(ex, "_processes", {}) or {})
                self._take(dump, fails, err)
            else:
                # every shard returned: a regular shutdown (no manager thread is left behind to trip over closed pipes
                # when the interpreter exits)
                ex.shutdown(wait=True)
                return
        finally:
            ex.shutdown(wait=False, cancel_futures=True)
            for p in list(getattr(ex, "_processes", {}) or {}):
                try:
                    os.kill(p, 9)
                except OSError:
                    pass

    def _take(self, dump, fails, err):
        if err:
            raise HarnessError("shard failed:\n" + err)
        self.ev.merge(dump)
        for f in fails:
            self.failures.append(Failure(f["case"], f["detail"], f["key"]))


class _Shard:
    def __init__(self, fn):
        self.fn = fn

    def __call__(self, task):
        try:
            ev, fails = self.fn(task)
            return ev.dump(), [f.to_json() for f in fails], None
        except BaseException:
            return None, None, traceback.format_exc()
        finally:
            cleanup_tmp()


# -- "current case" notes: a worker that has to be killed (a render that cannot be unwound) leaves its case behind ----
NOTE_DIR = os.environ.get("VERIF_NOTE_DIR") or ("/dev/shm" if os.path.isdir("/dev/shm") else tempfile.gettempdir())


def note_path(pid=None):
    return os.path.join(NOTE_DIR, "vf-current-%d.json" % (pid or os.getpid()))


def note_case(case, what):
    """remember the case about to be executed by code that might never return"""
    try:
        with open(note_path(), "w") as fh:
            json.dump({"case": jsonable(case), "what": what}, fh)
    except Exception:
        pass


def clear_note():
    try:
        os.unlink(note_path())
    except OSError:
        pass


# -- temp dirs -----------------------------------------------------------
_tmp_roots = []


def tmp_root():
    base = os.environ.get("VERIF_TMP") or ("/dev/shm" if os.path.isdir("/dev/shm") else tempfile.gettempdir())
    d = tempfile.mkdtemp(prefix="vf-%d-" % os.getpid(), dir=base)
    _tmp_roots.append((os.getpid(), d))
    return d


def cleanup_tmp():
    me = os.getpid()
    for pid, d in list(_tmp_roots):
        if pid == me:
            shutil.rmtree(d, ignore_errors=True)
            _tmp_roots.remove((pid, d))


atexit.register(cleanup_tmp)


class TempDir:
    def __enter__(self):
        self.d = tmp_root()
        return self.d

    def __exit__(self, *a):
        shutil.rmtree(self.d, ignore_errors=True)
        try:
            _tmp_roots.remove((os.getpid(), self.d))
        except ValueError:
            pass


# -- hypothesis glue -----------------------------------------------------
def hyp_search(strategy, check, ev, seed, max_examples, classify=None, known=None,
               shrink=True, stateful=False, max_unknown=3, shrink_budget=25.0):
    """Draw cases from `strategy`, call check(case) which raises Failure on an oracle miss.

    Failures that `classify` maps to an id in `known` are counted (excluded_known) and the
    search continues behind them. The first unknown failure is shrunk by hypothesis; the minimal
    one is returned. Returns list[Failure] (unknown, shrunk) and records known ones in ev.
    """
    import hypothesis
    from hypothesis import HealthCheck, Phase, given, settings

    known = known or {}
    found = {}
    last = {}

    phases = [Phase.generate, Phase.target]
    if shrink:
        phases.append(Phase.shrink)

    st = settings(
        max_examples=max_examples,
        deadline=None,
        database=None,
        derandomize=False,
        report_multiple_bugs=False,
        suppress_health_check=list(HealthCheck),
        phases=phases,
        print_blob=False,
        verbosity=hypothesis.Verbosity.quiet,
    )

    def body(case):
        if "t" in last and time.time() - last["t"] > shrink_budget:
            return  # shrink budget used up: hypothesis then reports Flaky and we keep the smallest failure so far
        try:
            check(case)
        except Failure as f:
            kid = classify(f) if classify else None
            if kid is not None and kid in known:
                ev.excluded_known[kid] += 1
                if kid not in found:
                    found[kid] = f
                return
            last["f"] = f
            last.setdefault("t", time.time())
            raise

    test = hypothesis.seed(seed)(settings(st)(given(strategy)(body)))
    try:
        test()
    except Failure:
        return [last["f"]], found
    except (hypothesis.errors.Flaky, hypothesis.errors.FlakyFailure, BaseExceptionGroup) as e:
        f = last.get("f")
        if f is not None:
            return [f], found
        raise
    return [], found


# -- known findings -----------------------------------------------------
def load_known(pid):
    path = os.path.join(VERIF, "known_findings.json")
    if not os.path.exists(path):
        return {}
    with open(path) as fh:
        data = json.load(fh)
    return {e["id"]: e for e in data if e["property"] == pid and e.get("status") == "known"}


def write_replay(pid, failure):
    d = os.path.join(os.environ.get("VERIF_REPLAY_DIR") or os.path.join(VERIF, "replays"), pid)
    os.makedirs(d, exist_ok=True)
    body = {"property": pid, "key": failure.key, "detail": failure.detail, "case": jsonable(failure.case)}
    name = "%016x.json" % fp(body["case"])
    path = os.path.join(d, name)
    with open(path, "w") as fh:
        json.dump(body, fh, indent=1, sort_keys=True)
    return path


def write_evidence(mod, ctx, violations):
    ev = ctx.ev
    cov = {
        "evaluations": ev.evaluations,
        "distinct_nontrivial": len(ev.nontrivial) + ev.distinct_extra,
        "rule": mod.RULE,
        "samples": ev.samples,
        "labels": dict(sorted(ev.labels.items(), key=lambda kv: -kv[1])[:60]),
        "excluded_known": dict(ev.excluded_known),
        "rejected": ev.rejected,
    }
    if ev.exhaustive is not None:
        cov["exhaustive"] = bool(ev.exhaustive)
    cov.update(ev.notes)
    doc = {
        "property_id": mod.PID,
        "tier": ctx.tier,
        "seed": ctx.seed,
        "level": mod.LEVEL,
        "coverage": cov,
        "assumptions": list(getattr(mod, "ASSUMPTIONS", [])),
        "wall_s": round(time.time() - ctx.t0, 2),
        "violations": violations,
    }
    # sensitivity runs against mutated trees must not overwrite the evidence of the real tree
    d = os.environ.get("VERIF_EVIDENCE_DIR") or os.path.join(VERIF, "evidence")
    os.makedirs(d, exist_ok=True)
    with open(os.path.join(d, mod.PID + ".json"), "w") as fh:
        json.dump(doc, fh, indent=1, default=repr)
    return doc

"""Entry point: python -m vf.check C07 [--tier quick|thorough] [--replay path]"""
import argparse
import importlib
import json
import os
import sys
import traceback


def main(argv=None):
    ap = argparse.ArgumentParser()
    ap.add_argument("pid")
    ap.add_argument("--tier", default=os.environ.get("VERIF_TIER", "quick"), choices=["quick", "thorough"])
    ap.add_argument("--replay")
    ap.add_argument("--part", default=None, help="run only the named part(s) of the check (debugging)")
    args = ap.parse_args(argv)

    # deterministic hashing unless a property handles hash seeds itself
    if os.environ.get("PYTHONHASHSEED") != "0":
        env = dict(os.environ, PYTHONHASHSEED="0")
        os.execve(sys.executable, [sys.executable, "-m", "vf.check"] + (argv or sys.argv[1:]), env)

    from vf import core

    pid = args.pid.upper()
    # overall wall-clock guard: a hung worker must not hang the check. Hitting it is "inconclusive" (exit 2), never a
    # violation. Own process group so that forked workers die with us.
    import signal
    import threading

    try:
        os.setpgrp()
    except OSError:
        pass
    limit = float(os.environ.get("VERIF_MAX_WALL", "900" if args.tier == "quick" else "7200"))

    def _expired():
        sys.stdout.write("HARNESS-ERROR property=%s (wall-clock guard of %.0f s expired; inconclusive)\n" % (pid, limit))
        sys.stdout.flush()
        try:
            os.killpg(0, signal.SIGKILL)
        finally:
            os._exit(2)

    guard = threading.Timer(limit, _expired)
    guard.daemon = True
    guard.start()
    try:
        seed = int(os.environ.get("VERIF_SEED", "1") or "1")
    except ValueError:
        seed = core.fp(os.environ["VERIF_SEED"]) % (2 ** 31)
    try:
        core.setup_repo()
        mod = importlib.import_module("vf.props." + pid.lower())
    except Exception:
        traceback.print_exc()
        print("HARNESS-ERROR property=%s (import)" % pid)
        return 2

    classify = getattr(mod, "classify", None)
    known = core.load_known(pid)

    if args.replay:
        with open(args.replay) as fh:
            doc = json.load(fh)
        if doc.get("key") == "does-not-terminate" and "source" in doc["case"]:
            # a case that killed its worker: render it in a child process under a hard time limit
            import subprocess

            code = ("import sys, json; sys.path.insert(0, %r); sys.path.insert(1, %r)\n"
                    "from vf.gen import trun\nc = json.load(open(sys.argv[1]))['case']\n"
                    "print(trun.run_mako(c['source'], **c.get('kw', {}))[0])" % (core.REPO, core.VERIF))
            try:
                r = subprocess.run([sys.executable, "-c", code, args.replay], timeout=120, stdout=subprocess.PIPE, stderr=subprocess.STDOUT, text=True)
                ended = r.returncode == 0 and r.stdout.strip().splitlines()[-1:] in (["ok"], ["exc"])
            except subprocess.TimeoutExpired:
                ended = False
            if ended:
                print("replay: the render terminated this time")
                return 0
            print("detail: the render of this template did not terminate within its CPU budget / had to be killed")
            print("VIOLATION property=%s replay=%s" % (pid, args.replay))
            return 1
        try:
            f = mod.replay(doc["case"])
        except Exception:
            traceback.print_exc()
            print("HARNESS-ERROR property=%s (replay)" % pid)
            return 2
        if f is None:
            print("replay: property held on this case")
            return 0
        kid = classify(f) if classify else None
        if kid in known:
            print("KNOWN-FINDING: property=%s %s: %s" % (pid, kid, known[kid]["what"]))
            print("detail:", f.detail)
            return 0
        print("detail:", f.detail)
        print("VIOLATION property=%s replay=%s" % (pid, args.replay))
        return 1

    ctx = core.Ctx(pid, args.tier, seed)
    ctx.part = args.part
    try:
        mod.run(ctx)
    except Exception:
        traceback.print_exc()
        print("HARNESS-ERROR property=%s (run)" % pid)
        try:
            ctx.ev.notes["harness_error"] = traceback.format_exc()[-2000:]
            core.write_evidence(mod, ctx, 0)
        except Exception:
            pass
        return 2

    # triage failures: confirm by replay, match known findings, bucket by key
    known_hit = {}
    viol = {}
    unconfirmed = False
    for f in ctx.failures:
        kid = classify(f) if classify else None
        if kid in known:
            known_hit.setdefault(kid, f)
            ctx.ev.excluded_known[kid] += 0
            continue
        if f.key in viol:
            continue
        if f.info.get("no_confirm"):
            viol[f.key] = f  # the case killed its worker; re-running it here would hang this process too
            continue
        # re-run from the serialised form: guards against state leaking between cases
        try:
            again = mod.replay(json.loads(json.dumps(core.jsonable(f.case))))
        except Exception:
            traceback.print_exc()
            print("HARNESS-ERROR property=%s (confirming replay of %s)" % (pid, f.key))
            return 2
        if again is None:
            # a failure that the oracle reported but that does not reproduce from its serialised form points at state
            # leaking between cases or at a replay() that does not cover this case kind: a harness problem, not a pass
            ctx.ev.label("unconfirmed_failure")
            print("HARNESS-ERROR property=%s failure %s did not reproduce from its replay form: %s" % (pid, f.key, f.detail[:500]))
            unconfirmed = True
            continue
        kid = classify(again) if classify else None
        if kid in known:
            known_hit.setdefault(kid, again)
            continue
        viol[f.key] = again

    for kid in ctx.ev.excluded_known:
        if kid in known and kid not in known_hit:
            known_hit[kid] = None
    for kid in sorted(known_hit):
        print("KNOWN-FINDING: property=%s %s: %s" % (pid, kid, known[kid]["what"]))

    rc = 0
    for key, f in viol.items():
        path = core.write_replay(pid, f)
        print("detail[%s]: %s" % (key, f.detail[:2000]))
        print("VIOLATION property=%s replay=%s" % (pid, path))
        rc = 1
    doc = core.write_evidence(mod, ctx, len(viol))
    cov = doc["coverage"]
    print(
        "%s %s seed=%d: evaluations=%d distinct_nontrivial=%d excluded_known=%s wall=%.1fs -> %s"
        % (pid, args.tier, seed, cov["evaluations"], cov["distinct_nontrivial"],
           dict(cov["excluded_known"]), doc["wall_s"], "VIOLATION" if rc else ("HARNESS-ERROR" if unconfirmed else "ok"))
    )
    if unconfirmed and rc == 0:
        return 2
    return rc


if __name__ == "__main__":
    sys.exit(main())
